"""Worker process: python -m mc.worker CNN ; shard specs on stdin, results on stdout."""
import importlib
import os
import sys
import traceback

from . import pool


def main():
    prop = sys.argv[1]
    out = os.fdopen(os.dup(1), "wb")
    os.dup2(2, 1)  # stray prints go to stderr
    inp = sys.stdin.buffer
    mod = importlib.import_module(f"mc.props.{prop.lower()}")
    from . import env

    env.setup(getattr(mod, "VARIANT", "plain"))
    while True:
        try:
            spec = pool._recv(inp)
        except EOFError:
            return
        try:
            res = mod.run_shard(spec)
        except Exception:
            res = {"harness_error": traceback.format_exc()[-4000:], "spec": repr(spec)[:500]}
        pool._send(out, res)


if __name__ == "__main__":
    main()
