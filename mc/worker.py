"""Worker process: python -m mc.worker CNN ; shard specs on stdin, results on stdout."""
import importlib
import os
import sys
import traceback

from . import pool


def _journaled_case():
    import json

    path = os.environ.get("VERIF_JOURNAL")
    try:
        with open(path, "rb") as f:
            return json.loads(f.read().decode("utf8", "replace").strip())
    except Exception:
        return None


def main():
    prop = sys.argv[1]
    out = os.fdopen(os.dup(1), "wb")
    os.dup2(2, 1)  # stray prints go to stderr
    inp = sys.stdin.buffer
    mod = importlib.import_module(f"mc.props.{prop.lower()}")
    from . import env

    env.setup(getattr(mod, "VARIANT", "plain"))
    while True:
        try:
            spec = pool._recv(inp)
        except EOFError:
            return
        try:
            res = mod.run_shard(spec)
        except Exception as e:
            # The modules run clean on the tree they were written against, so an exception that escapes a
            # shard means the implementation raised where a value was expected: report it as a failure of
            # the journaled case (confirmed by replay like any other), not as a harness error.
            case = _journaled_case()
            tb = traceback.format_exc()[-4000:]
            if case is None:
                res = {"harness_error": tb, "spec": repr(spec)[:500]}
            else:
                res = {"evals": 1, "nontrivial": 1, "samples": [], "counters": {"shards_cut_short_by_exception": 1},
                       "suppressed": 0,
                       "failures": [{"key": f"exception:{type(e).__name__}", "what": tb[-1500:], "case": case}]}
        pool._send(out, res)


if __name__ == "__main__":
    main()
