"""Process pool of worker subprocesses speaking length-prefixed pickle frames.

Each worker imports the property module (which sets up the /repo build) and runs
shards.  A worker that dies or hangs is attributed to the shard it was running
(and, through the per-worker journal, to the exact case), then replaced.
"""
import os
import pickle
import select
import struct
import subprocess
import sys
import time

from . import build as _build

JOURNAL_DIR = "/dev/shm"
STALL = 300  # seconds without a new journal entry before a worker past its budget counts as hung


def _send(f, obj):
    data = pickle.dumps(obj, protocol=4)
    f.write(struct.pack("<Q", len(data)))
    f.write(data)
    f.flush()


def _recv(f):
    hdr = f.read(8)
    if len(hdr) < 8:
        raise EOFError
    (n,) = struct.unpack("<Q", hdr)
    data = f.read(n)
    if len(data) < n:
        raise EOFError
    return pickle.loads(data)


class Worker:
    def __init__(self, prop, variant, idx, tier, seed):
        self.prop, self.variant, self.idx = prop, variant, idx
        self.journal = os.path.join(JOURNAL_DIR, f"verif-journal-{os.getpid()}-{idx}")
        env = dict(os.environ)
        env.update(_build.sanitizer_env(variant))
        env["VERIF_JOURNAL"] = self.journal
        env["VERIF_TIER"] = tier
        env["VERIF_SEED"] = str(seed)
        env["PYTHONHASHSEED"] = "0"
        env["TSKIT_VERIF"] = "1"
        env.setdefault("OMP_NUM_THREADS", "1")
        env.setdefault("OPENBLAS_NUM_THREADS", "1")
        self.stderr_path = self.journal + ".err"
        self.stderr_f = open(self.stderr_path, "wb")
        self.p = subprocess.Popen(
            [_build.PY, "-m", "mc.worker", prop],
            stdin=subprocess.PIPE, stdout=subprocess.PIPE, stderr=self.stderr_f,
            cwd=_build.VERIF, env=env,
        )
        self.current = None
        self.started = None

    def submit(self, shard_id, spec):
        self.current = shard_id
        self.started = time.time()
        _send(self.p.stdin, spec)

    def read_journal(self):
        try:
            with open(self.journal, "rb") as f:
                return f.read().decode("utf8", "replace")
        except OSError:
            return ""

    def read_stderr(self, n=3000):
        try:
            with open(self.stderr_path, "rb") as f:
                data = f.read()
            return data[-n:].decode("utf8", "replace")
        except OSError:
            return ""

    def close(self, kill=False):
        try:
            if kill:
                self.p.kill()
            else:
                self.p.stdin.close()
            self.p.wait(timeout=10)
        except Exception:
            try:
                self.p.kill()
            except Exception:
                pass
        self.stderr_f.close()
        for path in (self.journal, self.stderr_path):
            try:
                os.unlink(path)
            except OSError:
                pass


def run_shards(prop, variant, specs, tier, seed, nworkers=None, shard_timeout=900,
               on_result=None):
    """Run all shard specs; returns list of (shard_id, result | {"crash": ...})."""
    nworkers = nworkers or min(int(os.environ.get("VERIF_WORKERS", "16")), max(1, len(specs)))
    specs = list(specs)
    pending = list(enumerate(specs))
    pending.reverse()
    workers = [Worker(prop, variant, i, tier, seed) for i in range(nworkers)]
    results = []
    active = {}
    resumes = {}

    def maybe_resume(sid, res):
        """After a crash inside a resumable shard, queue the remainder of the shard."""
        import json

        try:
            j = json.loads(res.get("journal", "").strip() or "null")
        except Exception:
            return
        spec = specs[sid]
        if not (isinstance(j, dict) and "_i" in j and isinstance(spec, dict) and spec.get("_resumable")):
            return
        root = spec.get("_root", sid)
        resumes[root] = resumes.get(root, 0) + 1
        if resumes[root] > 25:
            return
        new = dict(spec)
        new["_root"] = root
        new["_skip"] = j["_i"] + 1
        specs.append(new)
        pending.append((len(specs) - 1, new))

    def feed(w):
        if pending:
            sid, spec = pending.pop()
            try:
                w.submit(sid, spec)
                active[w.p.stdout.fileno()] = w
            except (BrokenPipeError, OSError):
                results.append((sid, {"crash": "worker died before start",
                                      "stderr": w.read_stderr()}))
                return False
        return True

    for w in workers:
        feed(w)
    while active:
        fds = list(active.keys())
        ready, _, _ = select.select(fds, [], [], 5.0)
        now = time.time()
        for fd in fds:
            w = active[fd]
            if fd in ready:
                try:
                    res = _recv(w.p.stdout)
                    ok = True
                except (EOFError, pickle.UnpicklingError, struct.error):
                    ok = False
                del active[fd]
                if ok:
                    results.append((w.current, res))
                    if on_result:
                        on_result(w.current, res)
                    w.current = None
                    feed(w)
                else:
                    w.p.wait()
                    res = {"crash": f"worker exited with status {w.p.returncode}",
                           "journal": w.read_journal(), "stderr": w.read_stderr()}
                    res["spec"] = specs[w.current]
                    results.append((w.current, res))
                    maybe_resume(w.current, res)
                    idx = w.idx
                    w.close(kill=True)
                    nw = Worker(prop, variant, idx, tier, seed)
                    workers[workers.index(w)] = nw
                    feed(nw)
            elif now - w.started > shard_timeout:
                # A shard that is merely slow (loaded machine) still journals new cases: only a worker
                # whose journal has not moved for STALL seconds is hung.  Progressing shards get up to
                # 6x the nominal budget.
                try:
                    quiet = now - os.stat(w.journal).st_mtime
                except OSError:
                    quiet = now - w.started
                if quiet < STALL and now - w.started < 6 * shard_timeout:
                    continue
                del active[fd]
                res = {"crash": f"hang: no result after {shard_timeout}s",
                       "journal": w.read_journal(), "stderr": w.read_stderr()}
                res["spec"] = specs[w.current]
                results.append((w.current, res))
                maybe_resume(w.current, res)
                idx = w.idx
                w.close(kill=True)
                nw = Worker(prop, variant, idx, tier, seed)
                workers[workers.index(w)] = nw
                feed(nw)
    for w in workers:
        w.close()
    return results
