"""Evaluate one seeded change:  python tools/seed_eval.py <tag> <PROP> [<PROP2> ...]

<tag> names a seeder's scratch worktree /tmp/seed-<tag> (change applied and built in place) and its
deliverables /tmp/seed-<tag>-out/{patch.diff,demo.py,meta.json}.  Steps: (1) demo against the changed
tree must fail, against a pristine in-place build (/tmp/wt-main) must pass; (2) copy the deliverables to
/verif/seeded/<tag>/; (3) run the quick tier of each named check with VERIF_REPO=/tmp/seed-<tag> and
record which failure keys fire in /verif/seeded/<tag>/detection.json.
"""
import json
import os
import shutil
import subprocess
import sys

VERIF = os.path.dirname(os.path.dirname(os.path.abspath(__file__)))
PY = "/venv/bin/python"


def run_demo(tree, demo):
    env = dict(os.environ, SEED_TREE=tree, PYTHONPATH=os.path.join(tree, "python"))
    r = subprocess.run([PY, demo], cwd="/tmp", env=env, capture_output=True, text=True, timeout=900)
    return r.returncode, (r.stdout + r.stderr)[-400:]


def main():
    tag = sys.argv[1]
    props = sys.argv[2:]
    tree = f"/tmp/seed-{tag}"
    out = f"/tmp/seed-{tag}-out"
    dest = os.path.join(VERIF, "seeded", tag)
    os.makedirs(dest, exist_ok=True)
    rc_changed, tail_changed = run_demo(tree, os.path.join(out, "demo.py"))
    rc_pristine, tail_pristine = run_demo("/tmp/wt-main", os.path.join(out, "demo.py"))
    for f in ("patch.diff", "demo.py", "meta.json"):
        shutil.copy(os.path.join(out, f), os.path.join(dest, f))
    det = {"demo_changed_exit": rc_changed, "demo_pristine_exit": rc_pristine,
           "demo_changed_tail": tail_changed, "demo_ok": rc_changed != 0 and rc_pristine == 0, "checks": {}}
    for prop in props:
        env = dict(os.environ, VERIF_REPO=tree)
        r = subprocess.run([PY, "-m", "mc.run", prop, "--tier", "quick", "--no-evidence"], cwd=VERIF, env=env,
                           capture_output=True, text=True)
        keys = sorted({l.strip()[4:] for l in r.stdout.splitlines() if l.strip().startswith("key=")})
        summary = [l for l in r.stdout.splitlines() if l.startswith(prop + " tier=")]
        det["checks"][prop] = {"exit": r.returncode, "detected": r.returncode == 1, "keys": keys[:12],
                               "summary": summary[-1][:200] if summary else r.stderr[-300:]}
    try:  # keep a hand-written note about an earlier miss across re-evaluations
        old = json.load(open(os.path.join(dest, "detection.json")))
        if old.get("notes"):
            det["notes"] = old["notes"]
    except Exception:
        pass
    with open(os.path.join(dest, "detection.json"), "w") as f:
        json.dump(det, f, indent=1)
    print(tag, "demo_ok=", det["demo_ok"], {p: (v["detected"], v["keys"][:3]) for p, v in det["checks"].items()})


if __name__ == "__main__":
    main()
