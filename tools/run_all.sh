#!/bin/bash
# Run one tier of every check in sequence; summary lines go to stdout.
# usage: tools/run_all.sh quick|thorough [PROP ...]
tier=${1:-quick}; shift
props=${@:-C01 C02 C03 C04 C05 C06 C07 C08 C09 C10 C11 C12 C13 C14 C15 C16 C17 C18 C19 C20}
cd "$(dirname "$0")/.."
for p in $props; do
  start=$(date +%s)
  /venv/bin/python -m mc.run $p --tier $tier --no-evidence 2>&1 | grep -E "^VIOLATION|^KNOWN|^  key=|^$p tier|HARNESS" | cut -c1-400
  echo "== $p $tier exit=${PIPESTATUS[0]} seconds=$(( $(date +%s) - start ))"
done
