"""Regenerate section 9.4 of DESIGN.md from known_findings.json."""
import json
import os

VERIF = os.path.dirname(os.path.dirname(os.path.abspath(__file__)))
k = json.load(open(os.path.join(VERIF, "known_findings.json")))
out = ["\n### 9.4 Genuine defects found by the checks on the unchanged tree\n\n",
       "Each was first reported by the named check as a VIOLATION with a replay file, confirmed against the\n"
       "real code, and then either repaired (one `fix:` commit each, listed as `fixed:` in\n"
       "`known_findings.json`; the check passes on the repaired tree and would report the violation again) or\n"
       "recorded as a known finding (the check prints `KNOWN-FINDING:` for exactly that failure key and still\n"
       "fails on any other key).  All fifteen candidate defects of NOTES.md (D1-D15) were rediscovered by the\n"
       "checks unaided; the others are new.  Python-level fixes were also run against the relevant test files\n"
       "with the repository's own extension build.\n",
       f"\n**Repaired ({len(k['fixed'])} `fix:` commits in /repo):**\n\n"]
for f in k["fixed"]:
    out.append("* " + f[len("fixed: "):] + "\n")
out.append(f"\n**Recorded as known findings ({len(k['findings'])}; not small/safe to repair):**\n\n")
for f in k["findings"]:
    out.append(f"* property={f['property']} key `{f['match']}`: {f['what']}\n")
text = "".join(out)
p = os.path.join(VERIF, "DESIGN.md")
s = open(p).read()
i = s.index("\n### 9.4 Genuine defects")
j = s.index("\n### 9.5 ", i)
s = s[:i] + text + s[j:]
open(p, "w").write(s)
print(len(k["fixed"]), "fixed,", len(k["findings"]), "known findings")
