#!/bin/bash
# Re-evaluate every kept seed against the current checks (regression of the detection matrix).
#   tools/reeval_all.sh [parallel jobs, default 3] [tag pattern]
V=$(cd "$(dirname "$0")/.." && pwd)
J=${1:-3}
PAT=${2:-c}
ls $V/seeded | grep "^$PAT" | while read tag; do
  props=$(python3 -c "
import json,sys
d=json.load(open('$V/seeded/$tag/detection.json'))
print(' '.join(d.get('checks',{}).keys()))" 2>/dev/null)
  [ -z "$props" ] && continue
  echo "$tag $props"
done | xargs -P $J -L 1 $V/tools/seed_reeval.sh
