"""Compare a junit xml against BASELINE stable_pass: print stable tests that did not pass."""
import json, sys, xml.etree.ElementTree as ET
b = json.load(open('/root/.vp/BASELINE.json'))
stable = set(b['stable_pass'])
root = ET.parse(sys.argv[1]).getroot()
passed, failed = set(), set()
for tc in root.iter('testcase'):
    cn = tc.get("classname")
    cn = cn if cn.startswith("python.") else "python." + cn
    tid = f"{cn}::{tc.get('name')}"
    bad = any(ch.tag in ('failure', 'error') for ch in tc)
    skipped = any(ch.tag == 'skipped' for ch in tc)
    if bad: failed.add(tid)
    elif not skipped: passed.add(tid)
passed -= failed
mods = {t.split('::')[0].rsplit('.', 1)[0] for t in passed | failed}
relevant = {t for t in stable if t.split('::')[0].rsplit('.', 1)[0] in mods or t.split('::')[0] in mods}
classes = {t.split('::')[0] for t in passed | failed}
relevant = {t for t in stable if t.split('::')[0] in classes}
missing = sorted(relevant - passed)
print(f"passed={len(passed)} failed={len(failed)} stable_in_scope={len(relevant)} stable_not_passing={len(missing)}")
for m in missing[:30]: print("  ", m)
