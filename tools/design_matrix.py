"""Regenerate section 9.5 of DESIGN.md (seeded changes and which checks catch them) from /verif/seeded/*."""
import glob
import json
import os
import re

VERIF = os.path.dirname(os.path.dirname(os.path.abspath(__file__)))
rows = []
for d in sorted(glob.glob(os.path.join(VERIF, "seeded", "*"))):
    tag = os.path.basename(d)
    try:
        meta = json.load(open(os.path.join(d, "meta.json")))
    except Exception:
        meta = {}
    try:
        det = json.load(open(os.path.join(d, "detection.json")))
    except Exception:
        det = meta.get("detection") and {"checks": meta["detection"]} or {"checks": {}}
    files = meta.get("files_changed") or []
    if isinstance(files, str):
        files = [files]
    what = (meta.get("clause_broken") or "")
    needs = (meta.get("what_it_needs_to_manifest") or meta.get("needs") or "")
    checks = []
    notes = []
    for p, v in det.get("checks", {}).items():
        checks.append(f"{p}: {'CAUGHT' if v.get('detected') else 'missed'}" + (f" ({', '.join(v.get('keys', [])[:2])})" if v.get("keys") else ""))
        if v.get("note"):
            notes.append(v["note"])
    if det.get("notes"):
        notes.append(det["notes"])
    def short(s, n):
        s = re.sub(r"\s+", " ", str(s))
        return s if len(s) <= n else s[: n - 3] + "..."
    rows.append((tag, meta.get("property", "?"), short(", ".join(os.path.basename(f) for f in files), 40), short(what, 160),
                 short(needs, 200), "; ".join(checks), short(" ".join(notes), 400)))
out = ["\n### 9.5 Seeded property-breaking changes and which checks catch them\n\n",
       "Each entry under `/verif/seeded/<tag>/` was written by a fresh sub-agent that saw only the property text\n"
       "(never /verif), in its own scratch worktree; the main session re-ran the demonstration against the changed\n"
       "tree (fails) and against a pristine in-place build (passes), then ran the quick tier of the check with\n"
       "`VERIF_REPO=<changed tree>` (`tools/seed_eval.py`).  `own-*` entries were written by the main session.\n\n",
       "| seed | property | file | clause broken | needs to manifest | quick-tier result (failure keys) |\n|---|---|---|---|---|---|\n"]
for r in rows:
    out.append("| " + " | ".join(x.replace("|", "\\|") for x in r[:6]) + " |\n")
missed = [r for r in rows if r[6]]
if missed:
    out.append("\nSeeds that the first version of a check missed, and what was strengthened:\n\n")
    for r in missed:
        out.append(f"* `{r[0]}` ({r[1]}): {r[6]}\n")
text = "".join(out)
p = os.path.join(VERIF, "DESIGN.md")
s = open(p).read()
marker = "\n### 9.5 Seeded property-breaking changes"
if marker in s:
    i = s.index(marker)
    j = s.find("\n### 9.5a", i)
    if j < 0:
        j = s.find("\n### 9.6", i)
    s = s[:i] + text + (s[j:] if j >= 0 else "")
else:
    s = s + text
open(p, "w").write(s)
print(len(rows), "seeds")
