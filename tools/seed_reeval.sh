#!/bin/bash
# Re-create a kept seed from /verif/seeded/<tag>/patch.diff in a scratch worktree and evaluate it again:
#   tools/seed_reeval.sh <tag> <PROP> [<PROP> ...]
# (the worktree and its build are removed afterwards)
set -e
tag=$1; shift
V=$(cd "$(dirname "$0")/.." && pwd)
wt=/tmp/seed-$tag
git -C /repo worktree remove --force $wt 2>/dev/null || true
rm -rf $wt $wt-out
git -C /repo worktree add --detach $wt HEAD -q
if ! git -C $wt apply $V/seeded/$tag/patch.diff 2>/dev/null && ! git -C $wt apply --3way $V/seeded/$tag/patch.diff 2>/dev/null; then
  echo "$tag APPLY-FAILED (the code it changes was repaired by a later fix commit)"
  git -C /repo worktree remove --force $wt 2>/dev/null || true
  rm -rf $wt $wt-out; git -C /repo worktree prune
  exit 0
fi
(cd $wt/python && /venv/bin/python setup.py build_ext --inplace -q >/dev/null 2>&1)
mkdir -p $wt-out
cp $V/seeded/$tag/patch.diff $V/seeded/$tag/demo.py $V/seeded/$tag/meta.json $wt-out/
/venv/bin/python $V/tools/seed_eval.py $tag "$@" 2>&1 | tail -1
git -C /repo worktree remove --force $wt 2>/dev/null || true
rm -rf $wt $wt-out
git -C /repo worktree prune
